"""Common driver for all checks: work partitioning, merging, findings, evidence, exit code.

A check module provides

    ID, LEVEL                     property id, evidence level
    RULE                          text: how cases are enumerated, what is counted as distinct
    ASSUMPTIONS                   list[str]
    items(tier, seed) -> list     picklable work items (deterministic order)
    run_item(item) -> Result      executes one item on the real code
    replay(doc) -> Result         re-executes one stored violation (no explorer)
    finish(merged, tier)          optional: vacuity guards / extra coverage keys; may raise Broken

Exit codes: 0 property held (known findings printed), 1 VIOLATION, 2 infrastructure/broken.
"""

from __future__ import annotations

import argparse
import hashlib
import importlib
import json
import multiprocessing as mp
import os
import sys
import time
import traceback
from dataclasses import dataclass, field
from pathlib import Path
from typing import Any

ROOT = Path(__file__).resolve().parents[2]
KNOWN = ROOT / "known_findings.txt"
# evidence/ and replays/ go to /verif unless a scratch run (a seeded change under test) asks for another place
OUT_ROOT = Path(os.environ.get("VERIF_OUT") or ROOT)


class Broken(RuntimeError):
    """The check itself is not trustworthy (vacuous exploration, nondeterminism, ...)."""


@dataclass
class Violation:
    sig: str  # specific failing input / call site / history class
    msg: str
    replay: dict[str, Any]  # self-contained scenario

    def to_json(self) -> dict[str, Any]:
        return {"sig": self.sig, "msg": self.msg, "replay": self.replay}


@dataclass
class Result:
    counters: dict[str, int] = field(default_factory=dict)
    digests: dict[str, set[int]] = field(default_factory=dict)  # name -> set of 64-bit digests
    violations: list[Violation] = field(default_factory=list)
    samples: list[Any] = field(default_factory=list)
    uncovered: set[str] = field(default_factory=set)
    notes: dict[str, Any] = field(default_factory=dict)

    def count(self, key: str, n: int = 1) -> None:
        self.counters[key] = self.counters.get(key, 0) + n

    def seen(self, name: str, obj: Any) -> bool:
        """record a canonical observation; returns True if new (within this Result)."""
        d = digest(obj)
        s = self.digests.setdefault(name, set())
        if d in s:
            return False
        s.add(d)
        return True

    def violate(self, sig: str, msg: str, replay: dict[str, Any], cap: int = 40) -> None:
        self.count("violating_cases")
        # keep the first few per signature (minimal first because enumeration is simplest-first)
        n = sum(1 for v in self.violations if v.sig == sig)
        if n < 3 and len(self.violations) < cap * 3:
            self.violations.append(Violation(sig, msg, replay))
        self.notes.setdefault("sig_counts", {})
        self.notes["sig_counts"][sig] = self.notes["sig_counts"].get(sig, 0) + 1

    def sample(self, obj: Any, cap: int = 4) -> None:
        if len(self.samples) < cap:
            self.samples.append(obj)

    def merge(self, other: Result) -> None:
        for k, v in other.counters.items():
            self.counters[k] = self.counters.get(k, 0) + v
        for k, s in other.digests.items():
            self.digests.setdefault(k, set()).update(s)
        for v in other.violations:
            if sum(1 for w in self.violations if w.sig == v.sig) < 3:
                self.violations.append(v)
        for s in other.samples:
            if len(self.samples) < 8:
                self.samples.append(s)
        self.uncovered |= other.uncovered
        for k, v in other.notes.items():
            if k == "sig_counts":
                d = self.notes.setdefault("sig_counts", {})
                for a, b in v.items():
                    d[a] = d.get(a, 0) + b
            elif isinstance(v, dict):
                d = self.notes.setdefault(k, {})
                for a, b in v.items():
                    if isinstance(b, int) and not isinstance(b, bool):
                        d[a] = d.get(a, 0) + b
                    else:
                        d[a] = b
            elif isinstance(v, list):
                lst = self.notes.setdefault(k, [])
                for x in v:
                    if x not in lst and len(lst) < 64:
                        lst.append(x)
            else:
                self.notes[k] = v


def digest(obj: Any) -> int:
    if not isinstance(obj, bytes):
        obj = repr(obj).encode()
    return int.from_bytes(hashlib.blake2b(obj, digest_size=8).digest(), "big")


def jsonable(o: Any) -> Any:
    if isinstance(o, bytes | bytearray):
        return bytes(o).hex()
    if isinstance(o, dict):
        return {str(k): jsonable(v) for k, v in o.items()}
    if isinstance(o, list | tuple):
        return [jsonable(x) for x in o]
    if isinstance(o, set | frozenset):
        return sorted(jsonable(x) for x in o)
    if isinstance(o, int | float | str | bool) or o is None:
        return o
    return repr(o)


# -- known findings ------------------------------------------------------


def load_known(pid: str) -> dict[str, str]:
    out: dict[str, str] = {}
    lines: list[str] = []
    if KNOWN.exists():
        lines += KNOWN.read_text().splitlines()
    extra = ROOT / "findings.d" / f"{pid}.txt"
    if extra.exists():
        lines += extra.read_text().splitlines()
    for line in lines:
        line = line.strip()
        if not line.startswith("finding:"):
            continue
        parts = line.split(None, 3)
        if len(parts) < 3:
            continue
        kv = dict(p.split("=", 1) for p in parts[1:3] if "=" in p)
        if kv.get("property") != pid or "sig" not in kv:
            continue
        out[kv["sig"]] = parts[3] if len(parts) > 3 else ""
    return out


# -- worker --------------------------------------------------------------

_MOD = None


def _init(modname: str) -> None:
    global _MOD
    _MOD = importlib.import_module(modname)
    init = getattr(_MOD, "worker_init", None)
    if init:
        init()


def _work(chunk: list[Any]) -> Result:
    assert _MOD is not None
    res = Result()
    for item in chunk:
        try:
            r = _MOD.run_item(item)
        except Exception as e:  # harness error: must never look like a pass
            res.notes.setdefault("harness_errors", []).append(
                f"{type(e).__name__}: {e} @ {item!r}\n{traceback.format_exc()[-1500:]}"
            )
            res.count("harness_errors")
            continue
        res.merge(r)
        res.count("items")
    return res


def run_parallel(modname: str, items: list[Any], procs: int | None = None, chunk: int | None = None) -> Result:
    procs = procs or int(os.environ.get("VERIF_PROCS", "0")) or min(16, os.cpu_count() or 1)
    merged = Result()
    if not items:
        return merged
    if chunk is None:
        chunk = max(1, min(64, len(items) // (procs * 8) or 1))
    chunks = [items[i : i + chunk] for i in range(0, len(items), chunk)]
    if procs == 1 or len(chunks) == 1:
        _init(modname)
        for c in chunks:
            merged.merge(_work(c))
        return merged
    ctx = mp.get_context("fork")
    with ctx.Pool(procs, initializer=_init, initargs=(modname,)) as pool:
        for r in pool.imap_unordered(_work, chunks):
            merged.merge(r)
    return merged


# -- main ----------------------------------------------------------------


def _cleanup_stale_scratch() -> None:
    """remove /dev/shm/vf-*-<pid> scratch directories whose owning process is gone"""
    import re
    import shutil

    for p in Path("/dev/shm").glob("vf-*"):
        m = re.search(r"-(\d+)$", p.name)
        if m and not Path(f"/proc/{m.group(1)}").exists():
            shutil.rmtree(p, ignore_errors=True)


def main(modname: str, argv: list[str] | None = None) -> int:
    _cleanup_stale_scratch()
    ap = argparse.ArgumentParser()
    ap.add_argument("--tier", default=os.environ.get("VERIF_TIER", "quick"), choices=["quick", "thorough"])
    ap.add_argument("--replay", default=None)
    ap.add_argument("--procs", type=int, default=None)
    args = ap.parse_args(argv)
    seed = int(os.environ.get("VERIF_SEED", "0") or 0)
    mod = importlib.import_module(modname)
    pid: str = mod.ID
    t0 = time.time()

    if args.replay:
        doc = json.loads(Path(args.replay).read_text())
        _init(modname)
        r1 = mod.replay(doc["replay"])
        r2 = mod.replay(doc["replay"])
        s1 = sorted((v.sig, v.msg) for v in r1.violations)
        s2 = sorted((v.sig, v.msg) for v in r2.violations)
        if s1 != s2:
            print(f"BROKEN property={pid} replay is not deterministic")
            return 2
        if not r1.violations:
            print(f"replay: no violation (property={pid})")
            return 0
        for v in r1.violations:
            print(f"replay: {v.sig}: {v.msg}")
        print(f"VIOLATION property={pid} replay={args.replay}")
        return 1

    try:
        items = mod.items(args.tier, seed)
        merged = run_parallel(modname, items, args.procs, getattr(mod, "CHUNK", None))
        extra: dict[str, Any] = {}
        if merged.counters.get("harness_errors"):
            for e in merged.notes.get("harness_errors", [])[:5]:
                print("HARNESS-ERROR", e, file=sys.stderr)
            raise Broken(f"{merged.counters['harness_errors']} work items raised inside the harness")
        fin = getattr(mod, "finish", None)
        if fin:
            try:
                extra = fin(merged, args.tier) or {}
            except Broken as e:
                # a coverage guard that fails *because* the code under test misbehaves (an outcome class that
                # vanished, a conformance replay that disagrees) must not mask the violations that explain it
                unlisted = {v.sig for v in merged.violations} - set(load_known(pid))
                if not unlisted:
                    raise
                print(f"note: coverage guard not met in a run with unlisted violations: {e}")
                extra = {"coverage_guard_failed": str(e)}
    except Broken as e:
        print(f"BROKEN property={pid} {e}")
        return 2

    known = load_known(pid)
    by_sig: dict[str, list[Violation]] = {}
    for v in merged.violations:
        by_sig.setdefault(v.sig, []).append(v)
    sig_counts = merged.notes.get("sig_counts", {})
    unknown = 0
    printed_known = 0
    rdir = OUT_ROOT / "replays" / pid
    for sig in sorted(by_sig):
        v = by_sig[sig][0]
        if sig in known:
            print(f"KNOWN-FINDING: property={pid} {sig} :: {known[sig]} [{sig_counts.get(sig, 1)} cases]")
            printed_known += 1
            continue
        unknown += 1
        rdir.mkdir(parents=True, exist_ok=True)
        path = rdir / (hashlib.blake2b(sig.encode(), digest_size=6).hexdigest() + ".json")
        path.write_text(
            json.dumps(jsonable({"property": pid, "sig": sig, "msg": v.msg, "replay": v.replay}), indent=1)
        )
        print(f"  {sig}: {v.msg} [{sig_counts.get(sig, 1)} cases]")
        print(f"VIOLATION property={pid} replay={path}")
    stale = sorted(s for s in known if s not in by_sig)
    for s in stale:
        print(f"note: listed finding not reproduced in this tier: {s}", file=sys.stderr)

    wall = time.time() - t0
    write_evidence(mod, merged, args.tier, seed, wall, unknown, printed_known, extra)
    c = merged.counters
    print(
        f"{pid} tier={args.tier} items={c.get('items', 0)} "
        + " ".join(f"{k}={v}" for k, v in sorted(c.items()) if k != "items")
        + f" wall={wall:.1f}s violations={unknown} known={printed_known}"
    )
    return 1 if unknown else 0


def write_evidence(
    mod: Any, merged: Result, tier: str, seed: int, wall: float, unknown: int, known: int, extra: dict[str, Any]
) -> None:
    c = merged.counters
    cov: dict[str, Any] = {}
    distinct = {k: len(v) for k, v in merged.digests.items()}
    if mod.LEVEL == "model_checking":
        cov["states"] = distinct.get("states", 0)
        cov["transitions"] = c.get("transitions", 0)
        cov["traces_validated_against_impl"] = c.get("executions", 0)
        cov["executions"] = c.get("executions", 0)
    cov["evaluations"] = c.get("evaluations", c.get("executions", c.get("items", 0)))
    cov["distinct_nontrivial"] = distinct.get("nontrivial", distinct.get("states", 0))
    cov["rule"] = mod.RULE
    cov["samples"] = jsonable(merged.samples) or ["<none>"]
    cov["counters"] = dict(sorted(c.items()))
    cov["distinct"] = distinct
    cov["uncovered"] = sorted(merged.uncovered)
    cov["known_findings_reproduced"] = known
    cov["violating_cases_by_signature"] = merged.notes.get("sig_counts", {})
    for k, v in merged.notes.items():
        if k not in ("sig_counts", "harness_errors"):
            cov.setdefault(k, jsonable(v))
    cov.update(extra)
    cov.setdefault("exhaustive", True)
    doc = {
        "property_id": mod.ID,
        "tier": tier,
        "seed": seed,
        "level": mod.LEVEL,
        "coverage": cov,
        "assumptions": list(mod.ASSUMPTIONS),
        "wall_s": round(wall, 2),
        "violations": unknown,
    }
    out = OUT_ROOT / "evidence" / f"{mod.ID}.json"
    out.parent.mkdir(parents=True, exist_ok=True)
    out.write_text(json.dumps(doc, indent=1, sort_keys=False) + "\n")
