"""In-memory stream connections for asyncio code running on a VLoop.

``Net`` patches ``asyncio.open_connection`` / ``asyncio.open_unix_connection``
(looked up on the asyncio module at call time by every gallia transport).  Each
accepted connection is a ``Conn``: a fake ``asyncio.Transport`` wired to a
stock ``StreamReaderProtocol``/``StreamReader``/``StreamWriter`` on the client
side and to a ``Peer`` script on the remote side.

What the client writes reaches the peer synchronously (``Peer.on_data``); what
the peer wants to send is queued in ``Conn.out`` as *segments* and reaches the
client only when the explorer fires the corresponding environment action
(``data_received`` / ``eof_received`` / ``connection_lost``).
"""

from __future__ import annotations

import asyncio
from collections import deque
from collections.abc import Callable
from typing import Any

from vf.engine.explore import Action, Run

EOF = "EOF"
RST = "RST"


class Peer:
    """Remote end of one connection.  Subclass and override."""

    conn: Conn

    def on_connect(self) -> None:
        pass

    def on_data(self, data: bytes) -> None:
        pass

    def on_client_close(self) -> None:
        pass

    # helpers
    def send(self, data: bytes, splits: list[int] | None = None) -> None:
        """Queue data for the client; splits = absolute cut offsets inside data."""
        if splits:
            last = 0
            for s in sorted(set(splits)):
                if 0 < s < len(data):
                    self.conn.out.append(data[last:s])
                    last = s
            self.conn.out.append(data[last:])
        elif data:
            self.conn.out.append(data)

    def send_eof(self) -> None:
        self.conn.out.append(EOF)

    def send_rst(self) -> None:
        self.conn.out.append(RST)


class FakeTransport(asyncio.Transport):
    def __init__(self, conn: Conn) -> None:
        super().__init__()
        self.conn = conn
        self._closing = False
        self.buffer = bytearray()  # user-space write buffer (only used when conn.tx_room is not None)
        self._paused_writing = False
        self.high, self.low = 64 * 1024, 16 * 1024

    def write(self, data: bytes | bytearray | memoryview) -> None:
        data = bytes(data)
        c = self.conn
        if c.lost:
            # like _SelectorSocketTransport: writes after loss are dropped
            c.dropped_writes += 1
            return
        if self._closing:
            # like _SelectorSocketTransport: a write after close() is not an error of its own; the data goes nowhere
            # and the StreamWriter's next drain() reports the lost connection
            c.dropped_writes += 1
            return
        if c.tx_room is None:
            c.on_client_write(data)
            return
        # slow peer: the kernel takes what it has room for, the rest waits in the transport's buffer
        if not self.buffer and c.tx_room > 0:
            n = min(c.tx_room, len(data))
            c.tx_room -= n
            c.on_client_write(data[:n])
            data = data[n:]
        if data:
            self.buffer += data
            if len(self.buffer) > self.high and not self._paused_writing:
                self._paused_writing = True
                c.protocol.pause_writing()

    def _flush(self, n: int) -> None:
        """the peer read n bytes from its socket: that much of the write buffer moves on"""
        c = self.conn
        if c.lost:
            return
        chunk = bytes(self.buffer[:n])
        del self.buffer[:n]
        c.tx_room = max(0, n - len(chunk))
        if chunk:
            c.on_client_write(chunk)
        if self._paused_writing and len(self.buffer) <= self.low:
            self._paused_writing = False
            c.protocol.resume_writing()
        if self._closing and not self.buffer:
            c.peer.on_client_close()
            c.loop.call_soon(c._lost, None)

    def writelines(self, list_of_data: Any) -> None:
        self.write(b"".join(list_of_data))

    def can_write_eof(self) -> bool:
        return True

    def write_eof(self) -> None:
        self.conn.client_eof = True

    def is_closing(self) -> bool:
        return self._closing

    def close(self) -> None:
        if self._closing:
            return
        c = self.conn
        if c.abortive_close and self.buffer:
            # SO_LINGER(on, 0 s): close() throws away what has not been sent yet and resets the connection
            c.aborted_bytes += len(self.buffer)
            self.buffer.clear()
        self._closing = True
        c.client_closed_at = c.loop.time()
        if self.buffer:
            return  # like asyncio: buffered data is flushed first, connection_lost follows (see _flush)
        c.peer.on_client_close()
        c.loop.call_soon(c._lost, None)

    def abort(self) -> None:
        # like asyncio: buffered data is thrown away
        if self.buffer:
            self.conn.aborted_bytes += len(self.buffer)
            self.buffer.clear()
        if self._closing and not self.conn.lost:
            self.conn.peer.on_client_close()
            self.conn.loop.call_soon(self.conn._lost, None)
            return
        self.close()

    def get_extra_info(self, name: str, default: Any = None) -> Any:
        if name == "socket":
            return _FakeSock(self.conn)
        if name == "peername":
            return ("192.0.2.1", 1)
        if name == "sockname":
            return ("192.0.2.2", 2)
        return default

    def pause_reading(self) -> None:
        self.conn.paused = True

    def resume_reading(self) -> None:
        self.conn.paused = False

    def is_reading(self) -> bool:
        return not self.conn.paused

    def set_write_buffer_limits(self, high: Any = None, low: Any = None) -> None:
        pass

    def get_write_buffer_size(self) -> int:
        return len(self.buffer)


class _FakeSock:
    """what `writer.get_extra_info("socket")` hands out: records socket options; SO_LINGER(on, 0) changes how close() behaves"""

    def __init__(self, conn: Conn) -> None:
        self.conn = conn

    def setsockopt(self, level: int, opt: int, value: Any) -> None:
        import socket
        import struct

        self.conn.sockopts.append((level, opt, bytes(value) if isinstance(value, bytes | bytearray) else value))
        if level == socket.SOL_SOCKET and opt == socket.SO_LINGER and isinstance(value, bytes | bytearray) and len(value) >= 8:
            onoff, secs = struct.unpack("ii", bytes(value)[:8])
            self.conn.abortive_close = bool(onoff) and secs == 0

    def getsockopt(self, *a: Any) -> int:
        return 0

    def getsockname(self) -> Any:
        return ("192.0.2.2", 2)

    def getpeername(self) -> Any:
        return ("192.0.2.1", 1)

    def fileno(self) -> int:
        return -1


class Conn:
    """One fake connection; also an explorer actor."""

    def __init__(self, run: Run, peer: Peer, name: str, limit: int = 2**16) -> None:
        self.run = run
        self.loop = run.loop
        self.peer = peer
        self.name = name
        peer.conn = self
        self.out: deque[Any] = deque()
        self.wire: list[tuple[float, bytes]] = []  # what the client wrote, with vtime
        self.delivered: list[tuple[float, Any]] = []
        self.lost = False
        self.eof_sent = False
        self.paused = False
        self.client_eof = False
        self.client_closed_at: float | None = None
        self.dropped_writes = 0
        self.aborted_bytes = 0
        self.sockopts: list[tuple[int, int, Any]] = []
        self.abortive_close = False
        self.tx_room: int | None = None  # None: the peer takes every write at once; n: bytes the kernel still accepts (slow reader)
        self.tx_chunk = 4096  # bytes a slow peer reads per environment step
        self.reset_on_write_after_eof = False
        self.reader = asyncio.StreamReader(limit=limit, loop=self.loop)
        self.protocol = asyncio.StreamReaderProtocol(self.reader, loop=self.loop)
        self.transport = FakeTransport(self)
        self.protocol.connection_made(self.transport)
        self.writer = asyncio.StreamWriter(self.transport, self.protocol, self.reader, self.loop)
        peer.on_connect()

    # client -> peer
    def on_client_write(self, data: bytes) -> None:
        self.wire.append((self.loop.time(), data))
        if self.eof_sent and self.reset_on_write_after_eof:
            self.out.append(RST)
            return
        self.peer.on_data(data)

    def wire_bytes(self) -> bytes:
        return b"".join(d for _, d in self.wire)

    def _lost(self, exc: BaseException | None) -> None:
        if self.lost:
            return
        self.lost = True
        self.transport._closing = True
        self.protocol.connection_lost(exc)

    # peer -> client (environment actions)
    def _deliver_data(self, seg: bytes) -> None:
        if self.lost or self.transport._closing:
            return
        self.delivered.append((self.loop.time(), seg))
        self.protocol.data_received(seg)

    def _deliver_eof(self) -> None:
        if self.lost or self.transport._closing:
            return
        self.delivered.append((self.loop.time(), EOF))
        self.eof_sent = True
        keep = self.protocol.eof_received()
        if not keep:
            self.transport.close()

    def _deliver_rst(self) -> None:
        if self.lost:
            return
        self.delivered.append((self.loop.time(), RST))
        self.transport._closing = True
        self._lost(ConnectionResetError(104, "Connection reset by peer"))

    def actions(self) -> list[Action]:
        if not self.lost and self.tx_room is not None and self.transport.buffer:
            # the slow peer reads: part of the client's write buffer moves on (also after close(): pending data is flushed)
            n = self.tx_chunk
            acts = [Action(f"{self.name}:txflush{n}", [lambda: self.transport._flush(n)])]
            if self.transport._closing or self.paused or not self.out:
                return acts
            return acts + self._rx_actions()
        if self.lost or self.transport._closing or self.paused or not self.out:
            return []
        return self._rx_actions()

    def _rx_actions(self) -> list[Action]:
        head = self.out[0]

        def pop() -> None:
            self.out.popleft()

        if head == EOF:
            return [Action(f"{self.name}:eof", [self._deliver_eof], pre=pop)]
        if head == RST:
            return [Action(f"{self.name}:rst", [self._deliver_rst], pre=pop)]
        return [Action(f"{self.name}:rx{len(head)}", [lambda: self._deliver_data(head)], pre=pop)]


_REAL_OPEN_CONNECTION = asyncio.open_connection
_REAL_OPEN_UNIX_CONNECTION = asyncio.open_unix_connection


class Net:
    """Fake listener + patch of asyncio.open_connection."""

    def __init__(self, run: Run, peer_factory: Callable[[int], Peer | None]) -> None:
        """peer_factory(n) -> Peer for the n-th connection attempt or None to refuse."""
        self.run = run
        self.peer_factory = peer_factory
        self.attempts = 0
        self.accepted = 0
        self.conns: list[Conn] = []
        self.up_at = 0.0  # listener refuses before this virtual instant
        self.tx_room: int | None = None  # not None: peers read slowly (see Conn.tx_room)
        self.attempt_log: list[tuple[float, str]] = []
        self._orig: dict[str, Any] = {}

    async def _open(self, *args: Any, **kwargs: Any) -> tuple[asyncio.StreamReader, asyncio.StreamWriter]:
        await asyncio.sleep(0)
        n = self.attempts
        self.attempts += 1
        t = self.run.loop.time()
        peer = None if t < self.up_at else self.peer_factory(n)
        if peer is None:
            self.attempt_log.append((t, "refused"))
            raise ConnectionRefusedError(111, "Connect call failed")
        self.attempt_log.append((t, "accepted"))
        self.accepted += 1
        conn = Conn(self.run, peer, f"c{len(self.conns)}", limit=kwargs.get("limit", 2**16))
        conn.tx_room = self.tx_room
        self.conns.append(conn)
        self.run.add_actor(conn)
        return conn.reader, conn.writer

    def install(self) -> None:
        """Replace asyncio.open_connection / open_unix_connection - on the asyncio module and wherever a loaded gallia module
        has bound the function under a name of its own (``from asyncio import open_connection``): the import style of the
        code under test must not decide whether the fake network is used."""
        import sys

        self._orig = {
            "open_connection": asyncio.open_connection,
            "open_unix_connection": asyncio.open_unix_connection,
        }
        originals = (_REAL_OPEN_CONNECTION, _REAL_OPEN_UNIX_CONNECTION)
        self._rebound: list[tuple[Any, str, Any]] = []
        for name, mod in list(sys.modules.items()):
            if mod is None or not (name == "gallia" or name.startswith("gallia.")):
                continue
            d = getattr(mod, "__dict__", None)
            if d is None:
                continue
            for attr, val in list(d.items()):
                if any(val is o for o in originals):
                    self._rebound.append((d, attr, val))
                    d[attr] = self._open
        asyncio.open_connection = self._open  # type: ignore[assignment]
        asyncio.open_unix_connection = self._open  # type: ignore[assignment]

    def uninstall(self) -> None:
        for k, v in self._orig.items():
            setattr(asyncio, k, v)
        for d, attr, val in getattr(self, "_rebound", []):
            d[attr] = val
        self._rebound = []
