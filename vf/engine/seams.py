"""Seams that hand the clock and the database worker of gallia code to the virtual loop.

gallia reads the wall clock through ``time()`` / ``datetime.now()`` and talks to sqlite through
``aiosqlite``.  The seams are installed by *scanning every loaded ``gallia.*`` module* for
names bound to these objects - whatever the import style (``from time import time``,
``import time``, ``from datetime import datetime``, ``import datetime as dt`` ...) - so a
behaviour-preserving change of an import statement cannot silently disable a seam.
``patch_gallia()`` is idempotent and cheap; checks call it after importing what they use and
again at the start of every scenario (modules imported lazily in between are picked up).

Outside a running VLoop all replacements fall through to the real thing.
"""

from __future__ import annotations

import datetime as _dt
import sys
import time as _time
import types
from typing import Any

from vf.engine import dbshim
from vf.engine.vloop import VLoop

BASE_T = 1_700_000_000.0
# wall-clock correction a scenario may apply while it runs (NTP step, VM resume): the wall clock is BASE_T + OFFSET[0] + loop time
OFFSET = [0.0]
_ORIG_DATETIME = _dt.datetime
_ORIG_TIME = _time.time


def _vloop() -> VLoop | None:
    try:
        import asyncio

        loop = asyncio.events._get_running_loop()
    except Exception:  # noqa: BLE001
        return None
    return loop if isinstance(loop, VLoop) else None


class VDatetime(_ORIG_DATETIME):
    @classmethod
    def now(cls, tz: Any = None) -> Any:  # type: ignore[override]
        loop = _vloop()
        if loop is None:
            return _ORIG_DATETIME.now(tz)
        if tz is None:
            return _ORIG_DATETIME.fromtimestamp(BASE_T + OFFSET[0] + loop.time())
        return _ORIG_DATETIME.fromtimestamp(BASE_T + OFFSET[0] + loop.time(), tz)

    @classmethod
    def utcnow(cls) -> Any:  # type: ignore[override]
        loop = _vloop()
        if loop is None:
            return _ORIG_DATETIME.utcnow()
        return _ORIG_DATETIME.fromtimestamp(BASE_T + OFFSET[0] + loop.time(), _dt.UTC).replace(tzinfo=None)


def vtime() -> float:
    loop = _vloop()
    return _ORIG_TIME() if loop is None else BASE_T + OFFSET[0] + loop.time()


class _Proxy(types.ModuleType):
    """module look-alike that overrides a few attributes and delegates the rest"""

    def __init__(self, real: types.ModuleType, overrides: dict[str, Any]) -> None:
        super().__init__(real.__name__)
        self.__dict__["_real"] = real
        self.__dict__.update(overrides)

    def __getattr__(self, name: str) -> Any:
        return getattr(self.__dict__["_real"], name)


_TIME_PROXY = _Proxy(_time, {"time": vtime})
_DT_PROXY = _Proxy(_dt, {"datetime": VDatetime})

try:
    import aiosqlite as _real_aiosqlite
except Exception:  # noqa: BLE001
    _real_aiosqlite = None


def patch_gallia(db: bool = False) -> int:
    """Rebind clock (and, with db=True, aiosqlite) names in every loaded gallia module. Returns the number of bindings changed."""
    n = 0
    for name, mod in list(sys.modules.items()):
        if mod is None or not (name == "gallia" or name.startswith("gallia.")):
            continue
        d = getattr(mod, "__dict__", None)
        if d is None:
            continue
        for attr, val in list(d.items()):
            new: Any = None
            if val is _ORIG_DATETIME:
                new = VDatetime
            elif val is _dt:
                new = _DT_PROXY
            elif val is _ORIG_TIME:
                new = vtime
            elif val is _time:
                new = _TIME_PROXY
            elif db and _real_aiosqlite is not None and val is _real_aiosqlite:
                new = dbshim
            if new is not None:
                d[attr] = new
                n += 1
    return n


def bind_clock(mod: types.ModuleType, clock: Any) -> int:
    """Rebind whatever name `mod` uses for the wall clock (`time` the function or `time` the module) to `clock`."""
    n = 0
    for attr, val in list(mod.__dict__.items()):
        if val is _ORIG_TIME or val is vtime or getattr(val, "_vf_clock", False):
            mod.__dict__[attr] = clock
            n += 1
        elif val is _time or (isinstance(val, _Proxy) and val.__dict__.get("_real") is _time):
            mod.__dict__[attr] = _Proxy(_time, {"time": clock})
            n += 1
    try:
        clock._vf_clock = True
    except Exception:  # noqa: BLE001
        pass
    return n
