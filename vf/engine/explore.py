"""Stateless, deviation-bounded exploration of asyncio code on a VLoop.

A *scenario* is a factory: ``build(run)`` creates fresh gallia objects, driver
tasks and actors on ``run.loop``.  ``execute`` steps the loop; between two
loop iterations the environment (actors + clock) offers a menu of actions.
Where the menu has more than one entry a *choice point* is recorded; entry 0 is
always the benign default (run ready work; when quiescent deliver pending I/O;
only then let time pass).  Every other entry is a deviation with a cost.

``explore`` enumerates every choice sequence with total cost <= bound,
iterating the bound (all executions with 0 deviations, then 1, ...), each
execution re-run from scratch on fresh objects.
"""

from __future__ import annotations

import logging
from collections.abc import Callable, Iterator
from dataclasses import dataclass, field
from typing import Any

from vf.engine.vloop import VLoop


class ReplayDivergence(RuntimeError):
    pass


@dataclass
class Action:
    label: str
    io: list[Callable[[], Any]] = field(default_factory=list)
    advance: bool = False
    cost: int = 1
    pre: Callable[[], Any] | None = None  # bookkeeping run when chosen (before the iteration)
    idle: bool = False  # "nothing happens here" filler of an actor: only the default when no other actor has anything to deliver


@dataclass
class Choice:
    labels: list[str]
    costs: list[int]
    chosen: int
    t: float


@dataclass
class Policy:
    io_while_ready: bool = True  # inject I/O although tasks are still runnable
    early_timers: bool = False  # let time pass although tasks are runnable (slow callbacks)
    timer_before_io: bool = True  # timer fires although data is deliverable
    timer_with_io: bool = True  # data and timer land in the same iteration
    max_iterations: int = 20000
    max_vtime: float = 3600.0


class Run:
    """One execution: loop, actors, trace."""

    def __init__(self, prefix: list[int], policy: Policy) -> None:
        self.loop = VLoop()
        self.prefix = prefix
        self.policy = policy
        self.actors: list[Any] = []
        self.trace: list[Choice] = []
        self.fired: list[str] = []
        self.status = "running"
        self.n_actions = 0
        self.done: Callable[[], bool] = lambda: True
        self.obs: Any = None

    def add_actor(self, actor: Any) -> Any:
        self.actors.append(actor)
        return actor

    # menu ---------------------------------------------------------------
    def menu(self) -> list[Action]:
        loop, pol = self.loop, self.policy
        ready = loop.ready_n() > 0
        ios: list[Action] = []
        for a in self.actors:
            ios.extend(a.actions())
        ios.sort(key=lambda a: a.idle)  # (stable)
        nt = loop.next_timer()
        timers = nt is not None
        menu: list[Action] = []
        if ready:
            menu.append(Action("batch", cost=0))
            if pol.io_while_ready:
                menu.extend(ios)
            else:
                menu.extend(a for a in ios if getattr(a, "cost", 1) == 0)
            if pol.early_timers and timers and nt > loop.time():
                menu.append(Action("clock", advance=True))
        elif ios:
            first = ios[0]
            menu.append(Action(first.label, first.io, first.advance, 0, first.pre))
            menu.extend(ios[1:])
            if timers:
                if pol.timer_before_io:
                    menu.append(Action("clock", advance=True))
                if pol.timer_with_io:
                    for a in ios:
                        if not a.advance:
                            menu.append(Action(a.label + "+clock", a.io, True, 1, a.pre))
        elif timers:
            menu.append(Action("clock", advance=True, cost=0))
        return menu

    def step(self) -> bool:
        """Returns False when nothing is enabled (quiescent)."""
        menu = self.menu()
        if not menu:
            return False
        i = 0
        if len(menu) > 1:
            k = len(self.trace)
            if k < len(self.prefix):
                i = self.prefix[k]
                if i >= len(menu):
                    raise ReplayDivergence(
                        f"choice {k}: index {i} out of range for menu {[m.label for m in menu]}"
                    )
            self.trace.append(
                Choice([m.label for m in menu], [m.cost for m in menu], i, self.loop.time())
            )
        act = menu[i]
        if act.pre is not None:
            act.pre()
        self.n_actions += 1
        self.loop.iterate(io=act.io, advance=act.advance)
        return True

    def execute(self) -> None:
        pol = self.policy
        while True:
            if self.done():
                self.status = "done"
                break
            if self.loop.iterations >= pol.max_iterations or self.loop.time() > pol.max_vtime:
                self.status = "horizon"
                break
            if not self.step():
                self.status = "deadlock"
                break
        if len(self.trace) < len(self.prefix):
            raise ReplayDivergence(
                f"execution ended after {len(self.trace)} choice points, prefix has {len(self.prefix)}"
            )

    def choices(self) -> list[int]:
        return [c.chosen for c in self.trace]


Scenario = Callable[[Run], None]


def run_once(scenario: Scenario, prefix: list[int], policy: Policy) -> Run:
    """One complete execution on fresh objects.  scenario(run) must set run.done
    and may set run.finish (called after the execution, before shutdown, to
    collect observations into run.obs)."""
    run = Run(list(prefix), policy)
    run.loop.install()
    prev_disable = logging.root.manager.disable
    try:
        scenario(run)
        run.execute()
        fin = getattr(run, "finish", None)
        if fin is not None:
            fin()
    finally:
        run.loop.shutdown()
        logging.disable(prev_disable)
    return run


def explore(
    scenario: Scenario,
    bound: int,
    policy: Policy | None = None,
    max_execs: int | None = None,
) -> Iterator[Run]:
    """Yield every execution whose deviation cost is <= bound (iterative bounding).

    If max_execs is hit the generator stops and sets explore.capped on the
    last yielded run (run.capped = True)."""
    policy = policy or Policy()
    level: list[list[int]] = [[]]
    n = 0
    for d in range(bound + 1):
        nxt: list[list[int]] = []
        i = 0
        while i < len(level):
            prefix = level[i]
            i += 1
            run = run_once(scenario, prefix, policy)
            run.deviations = d  # type: ignore[attr-defined]
            n += 1
            ch = run.choices()
            for k in range(len(prefix), len(run.trace)):
                c = run.trace[k]
                for alt in range(1, len(c.labels)):
                    child = ch[:k] + [alt]
                    if c.costs[alt] == 0:
                        level.append(child)
                    elif d + c.costs[alt] <= bound:
                        nxt.append(child)
            if max_execs is not None and n >= max_execs:
                run.capped = True  # type: ignore[attr-defined]
                yield run
                return
            yield run
        level = nxt
        if not level:
            break
